"""C17 -- Real-time pacing and external events (partly)."""
from props.common import other_tasks, contract_tasks, lemma_tasks, TRUSTED_CORE

PROPERTY = "C17"


def tasks(tier):
    return contract_tasks("contracts.scheduler", "C17", tier=tier) + contract_tasks("contracts.run_prelude", "C17", tier=tier) \
        + lemma_tasks("contracts.run_prelude", "C17") \
        + contract_tasks("contracts.sim_process", "C17", tier=tier, names=["SimProcess"]) \
        + contract_tasks("contracts.tiered_time", "C08") + other_tasks("contracts.rt_bounded", "C17", "bounded")


TRUSTED_BASE = TRUSTED_CORE
ASSUMPTIONS = ["time.perf_counter() is a real number that never decreases (external; the clock value is symbolic)",
               "floats are treated as mathematical reals (ceil, /, * exact); rounding of rt_factor * time_resolution is not modelled",
               "loguru logger calls are recorded as ghost events, their formatting is not executed",
               "loop.create_task / asyncio.gather / tqdm are external: create_task(job) returns the job, awaiting gather(*list) completes when "
               "all listed jobs have completed (assumed contract of asyncio)",
               "pacing_from_cap composes AdvanceProgressRT, the step == progress.time check of sim_process (C13) and Run; that progress.time is "
               "written only by the simulator's own advance_progress is the frame clause of every scheduler contract (field P is owned)"]
NOT_COVERED = ["'a real-time run with compliant simulators completes without internal error' and 'a run whose simulators answer instantly is "
               "never reported as too slow' are whole-run wall-clock statements that depend on asyncio.wait_for timeouts in next_step_settled and "
               "on event-loop latency: no function contract expresses them; beyond the BOUNDED virtual-clock stand-in (contracts.rt_native: whole runs of "
               "the real scheduler, stated bound; recorded findings F17 / F20 counted as known instances) only the function-level parts are decided (rt_check reports iff "
               "behind; the depth-generic arithmetic of the cap raises no internal error: fix c35b8d8 / F12)",
               "set_event(t) 'causes a step at t': decided up to 'time t is inserted into next_steps exactly once and the simulator is woken'; "
               "that a scheduled time is eventually stepped is the liveness part of C05 (not decidable here)",
               "'rt_strict changes nothing else' is decided for rt_check (same frame, same report condition) -- rt_strict is passed to no "
               "other function (Run: it reaches sim_process unchanged)"]
LEVEL_TEXT = ("Function contracts on the real rt_check (reports IFF behind the wall clock; warning vs RuntimeError by rt_strict only; nothing else "
              "changes), MosaikRemote.set_event (error outside real-time mode; t >= until ignored with one warning; otherwise t scheduled once, "
              "for every group depth), the real-time cap of advance_progress (progress.time <= ceil(elapsed / rt_factor) on every path, every "
              "depth), scheduler.run (rt_factor <= 0 rejected before anything starts; world.rt_factor = rt_factor * time_resolution; one "
              "sim_process per simulator with exactly these arguments) and the lemma deriving the pacing bound of the statement from them. Whole "
              "real-time runs (never early, complete without internal error, never reported too slow, exactly the demanded steps) by a BOUNDED "
              "stand-in on a virtual clock (not a proof).")
DESIGN_REF = "DESIGN.md section 8 (C17)"
LEVEL_NOTE = ("Partly decided: the function-level clauses are proved (see coverage.not_covered for the whole-run wall-clock clauses). Trusted: pyvc "
              "encoder, reals for floats, assumed contracts of perf_counter/asyncio/loguru, z3.")
TECHNIQUE = "contract-based deductive verification (AST->z3 VCs on the real functions; the clock as a symbolic real); bounded virtual-clock stand-in for whole real-time runs"
CLAIMED = True
NA_REASON = ""
