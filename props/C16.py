"""C16 -- scheduler core (work in progress: metadata filled in below)."""
from props.common import other_tasks, contract_tasks, lemma_tasks, TRUSTED_CORE, SCHED_ASSUMPTIONS

PROPERTY = "C16"


def tasks(tier):
    return (contract_tasks("contracts.merge_ded", "C16") + contract_tasks("contracts.set_data_ded", "C16") + contract_tasks("contracts.get_data_ded", "C16") + contract_tasks("contracts.scheduler", "C16", tier=tier) + contract_tasks("contracts.sim_process", "C16", tier=tier)
            + contract_tasks("contracts.progress", "C16", tier=tier) + lemma_tasks("contracts.progress", "C16")
            + contract_tasks("contracts.connect", "C16", tier=tier) + other_tasks("contracts.dataplane_bounded", "C16", "bounded")
            + other_tasks("contracts.determinism_bounded", "C16", "bounded")
            + contract_tasks("contracts.tiered_time", "C08"))


TRUSTED_BASE = TRUSTED_CORE
ASSUMPTIONS = SCHED_ASSUMPTIONS + ['MosaikRemote.set_data (contract contracts.set_data_ded): strings uninterpreted, full_id.split(\'.\', 1) = (sid, eid) assumed jointly injective, distinct simulator ids name distinct SimRunners, _assert_async_requests through its contract, dict levels walked in arbitrary order each key once; the consumer side (get_input_data empties the table and merges it into the next step\'s inputs) is checked by a bounded stand-in (stated bound in coverage.bounded)']
NOT_COVERED = ["'exactly once, in A's next step': the producer side (set_data stores every value under its source at the addressed entity / attribute, touches nothing else, never writes into a refusing simulator) is proved; the consumer side (get_input_data: three-level dict merging) is decided by the bounded stand-in only"]
LEVEL_TEXT = "Ghost assertion C16 at BEGIN from wait_for_dependencies' postcondition for successors_to_wait_for (A does not begin a later step before B's step has finished); _assert_async_requests refuses exactly the pairs without an async_requests connection (ScenarioError iff); connect_async_requests records the pair; MosaikRemote.set_data (contract, data of arbitrary size): every value is stored under its source at the addressed simulator / entity / attribute, every other slot of every table is untouched, ScenarioError IFF an addressed simulator does not allow the request and nothing is ever written into such a simulator's table; the consumer side (get_input_data) by a bounded stand-in. MosaikRemote.get_data (contract, requests of arbitrary size): ScenarioError IFF an addressed simulator does not allow the request and then NO simulator is asked anything; otherwise at most one get_data request per addressed simulator, exactly for the values the cache did not answer. End to end (BOUNDED, not a proof): an agent sending set_data over an async_requests connection in real runs (2 scenarios x all configurations / interleavings of the harness) against the sequential reference semantics: delivered exactly once, in the next step. MosaikRemote.get_data (refusal iff some addressed simulator lacks the connection) by a BOUNDED stand-in."
DESIGN_REF = "DESIGN.md section 8 (C16)"
LEVEL_NOTE = 'Proved for any number of simulators, any topology, any reply values and every interleaving, under the listed assumptions (evidence: assumptions, coverage.trusted_base). Trusted: pyvc encoder, the rely/guarantee meta-theorem, assumed contracts of asyncio/heapq, the time/delay algebra axioms (C08 provenance), static connection-table facts, z3/cvc5.'
TECHNIQUE = 'contract-based deductive verification (AST->z3 VCs on the real functions, global invariant, rely/guarantee at awaits); MosaikRemote.set_data under contract (stored / frame / refused); bounded stand-in for the consumer side get_input_data'
CLAIMED = True
NA_REASON = ""
