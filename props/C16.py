"""C16 -- scheduler core (work in progress: metadata filled in below)."""
from props.common import other_tasks, contract_tasks, lemma_tasks, TRUSTED_CORE

PROPERTY = "C16"


def tasks(tier):
    return (contract_tasks("contracts.scheduler", "C16", tier=tier) + contract_tasks("contracts.sim_process", "C16", tier=tier)
            + contract_tasks("contracts.progress", "C16", tier=tier) + lemma_tasks("contracts.progress", "C16")
            + contract_tasks("contracts.connect", "C16", tier=tier) + other_tasks("contracts.dataplane_bounded", "C16", "bounded"))


TRUSTED_BASE = TRUSTED_CORE
ASSUMPTIONS = []
NOT_COVERED = []
LEVEL_TEXT = "Ghost assertion C16 at BEGIN from wait_for_dependencies' postcondition for successors_to_wait_for; set_data/get_data refusal and delivery (data plane) are not yet under contract."
DESIGN_REF = "DESIGN.md section 8 (C16)"
LEVEL_NOTE = 'Trusted: pyvc encoder (Python semantics of DESIGN 3.4), the rely/guarantee meta-theorem for cooperative asyncio tasks (DESIGN 6, not mechanised), assumed contracts of asyncio/heapq, time/delay algebra axioms (each with provenance to a C08 obligation), static connection-table facts static_ok/trig_static (assumed here; established by the scenario.py contracts where built), non-real-time mode, z3/cvc5.'
TECHNIQUE = "contract-based deductive verification (AST->z3 VCs on the real functions, global invariant, rely/guarantee at awaits)"
CLAIMED = True
NA_REASON = "check under construction in this round"
