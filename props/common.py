"""shared helpers for the per-property task lists"""
import importlib

TRUSTED_CORE = [
    "pyvc: self-written AST->z3 VC generator (symbolic executor, DESIGN sections 3-5); its Python-semantics rules are assumptions",
    "extraction by ast from /repo's working tree on every run; dropped: docstrings, comments, annotations, logging calls, f-string contents",
    "z3 4.x/5.x (Python API) and cvc5 1.0.3 as back ends",
]


def contract_tasks(module, prop, configure=None, names=None, tier="quick"):
    mod = importlib.import_module(module)
    out = []
    for c in getattr(mod, "CONTRACTS", []):
        if getattr(c, "thorough_only", False) and tier != "thorough":
            continue
        if prop in c.property_ids and (names is None or type(c).__name__ in names):
            t = {"kind": "contract", "module": module, "name": type(c).__name__}
            conf = getattr(c, "configure", None) or configure
            if conf:
                t["configure"] = conf
            if getattr(c, "configure_small", None):
                t["configure_small"] = c.configure_small
            if getattr(c, "configure_small2", None):
                t["configure_small2"] = c.configure_small2
            if getattr(c, "shard_variants", False):
                # one task per shape variant (independent; run in parallel)
                for i in range(len(c.variants)):
                    out.append({**t, "variant": i})
                continue
            out.append(t)
    return out


def lemma_tasks(module, prop, names=None):
    mod = importlib.import_module(module)
    out = []
    for l in getattr(mod, "LEMMAS", []):
        if prop in l.property_ids and (names is None or type(l).__name__ in names):
            t = {"kind": "lemma", "module": module, "name": type(l).__name__}
            if getattr(l, "configure", None):
                t["configure"] = l.configure
            out.append(t)
    return out


def other_tasks(module, prop, kind):
    mod = importlib.import_module(module)
    lst = {"scan": "SCANS", "bounded": "BOUNDED", "custom": "SCANS"}[kind]
    return [{"kind": kind, "module": module, "name": type(x).__name__}
            for x in getattr(mod, lst, []) if prop in x.property_ids]
