"""shared helpers for the per-property task lists"""
import importlib
import os

TRUSTED_CORE = [
    "pyvc: self-written AST->z3 VC generator (symbolic executor, DESIGN sections 3-5); its Python-semantics rules are assumptions",
    "extraction by ast from /repo's working tree on every run; dropped: docstrings, comments, annotations, logging calls, f-string contents",
    "z3 4.x/5.x (Python API) and cvc5 1.0.3 as back ends",
]

SCHED_ASSUMPTIONS = [
    "cooperative asyncio: exactly one task runs between two awaits, so the code between two awaits is atomic; the rely/guarantee rule used at every "
    "await (oblige invariant + guarantee, havoc shared state under invariant + rely, assume the awaited postcondition) is a meta-theorem argued in "
    "DESIGN section 6, not mechanised",
    "assumed contracts of asyncio (gather completes when all awaited conditions hold; wait returns at an arbitrary later point; Event), heapq "
    "(heappush / heappop / [0] on a multiset of times), tqdm and loguru (no effect)",
    "times and delays are terms of uninterpreted sorts; every axiom used about +, <, <=, shapes and tiers carries provenance to a discharged C08 "
    "obligation on mosaik/tiered_time.py (the derived, trigger-friendly order facts are re-proved from the base axioms by lemma "
    "derived_order_axioms on every run); outside the known finding F11 (K_mixed: delays with different cut-offs, equal below the smaller one)",
    "the connection tables (input_delays, successors, triggers, triggering_ancestors ...) are static while run() is active and well-typed "
    "(static_ok / trig_static); that connect_one builds them so is what its contract proves per connection, the link between the two is argued "
    "in DESIGN, not mechanised; triggering_ancestors as computed by cache_triggering_ancestors: contract contracts.closure_ded (sound / direct / "
    "closed, hence the minimum over all trigger paths) with the bounded stand-in kept alongside",
    "simulators are external: every reply value is arbitrary (symbolic), a call may raise ConnectionError",
    "non-real-time mode (rt_factor None) for sim_process and its coroutines; the real-time parts are decided under C17",
    "Python ints are mathematical integers (true in CPython); interpreter not run with -O (assert statements execute)",
]


CLOSURE_ASSUMPTION = (
    "cache_triggering_ancestors (contract contracts.closure_ded): simulators / ports / delays are uninterpreted sorts, delays with a total preorder and a "
    "composition monotone in its left argument (provenance: C08 lemmas trichotomy, lt_transitive, comp_monotone_left for equal shapes and cut-offs; "
    "different cut-offs between the same two simulators are findings F6 / F11 and excluded); dicts / sets are walked in an arbitrary order, each key once; "
    "set.pop() returns an arbitrary member; all triggering_ancestors dicts are empty at entry; the induction over trigger paths that turns the lemmas "
    "closure_min_base / closure_min_step into 'the entry is not above the delay of ANY trigger path' is applied outside the solver; termination of the "
    "worklist is not proved")


def contract_tasks(module, prop, configure=None, names=None, tier="quick"):
    mod = importlib.import_module(module)
    out = []
    for c in getattr(mod, "CONTRACTS", []):
        if getattr(c, "thorough_only", False) and os.environ.get("VERIF_WHOLE") != "1":
            # (the whole-function cross-check of sim_process: a development aid, run on request -- z3 occasionally does not come
            #  back from one of its queries, so it is not part of any registered command)
            continue
        if prop in c.property_ids and (names is None or type(c).__name__ in names):
            t = {"kind": "contract", "module": module, "name": type(c).__name__}
            conf = getattr(c, "configure", None) or configure
            if conf:
                t["configure"] = conf
            if getattr(c, "configure_small", None):
                t["configure_small"] = c.configure_small
            if getattr(c, "configure_small2", None):
                t["configure_small2"] = c.configure_small2
            if getattr(c, "shard_variants", False):
                # one task per shape variant (independent; run in parallel)
                for i in range(len(c.variants)):
                    out.append({**t, "variant": i})
                continue
            out.append(t)
    return out


def lemma_tasks(module, prop, names=None):
    mod = importlib.import_module(module)
    out = []
    for l in getattr(mod, "LEMMAS", []):
        if prop in l.property_ids and (names is None or type(l).__name__ in names):
            t = {"kind": "lemma", "module": module, "name": type(l).__name__}
            if getattr(l, "configure", None):
                t["configure"] = l.configure
            out.append(t)
    return out


def other_tasks(module, prop, kind):
    mod = importlib.import_module(module)
    lst = {"scan": "SCANS", "bounded": "BOUNDED", "custom": "SCANS"}[kind]
    return [{"kind": kind, "module": module, "name": type(x).__name__}
            for x in getattr(mod, lst, []) if prop in x.property_ids]
