"""C05 -- scheduler core (work in progress: metadata filled in below)."""
from props.common import other_tasks, contract_tasks, lemma_tasks, TRUSTED_CORE

PROPERTY = "C05"


def tasks(tier):
    return ((contract_tasks("contracts.scheduler", "C05", tier=tier) + contract_tasks("contracts.sim_process", "C05", tier=tier)
            + contract_tasks("contracts.progress", "C05", tier=tier) + lemma_tasks("contracts.progress", "C05"))
            + other_tasks("contracts.closure", "C05", "bounded"))


TRUSTED_BASE = TRUSTED_CORE
ASSUMPTIONS = []
NOT_COVERED = []
LEVEL_TEXT = "Safety half: every internal-error site on the run path (cannot progress backwards, already progressed, length/None errors, empty heap) is an obligation 'unreachable' under the invariant; deadlock freedom/termination (liveness) is NOT decided."
DESIGN_REF = "DESIGN.md section 8 (C05)"
LEVEL_NOTE = 'Trusted: pyvc encoder (Python semantics of DESIGN 3.4), the rely/guarantee meta-theorem for cooperative asyncio tasks (DESIGN 6, not mechanised), assumed contracts of asyncio/heapq, time/delay algebra axioms (each with provenance to a C08 obligation), static connection-table facts static_ok/trig_static (assumed here; established by the scenario.py contracts where built), non-real-time mode, z3/cvc5.'
TECHNIQUE = "contract-based deductive verification (AST->z3 VCs on the real functions, global invariant, rely/guarantee at awaits)"
CLAIMED = True
NA_REASON = "check under construction in this round"
