"""C05 -- scheduler core (work in progress: metadata filled in below)."""
from props.common import other_tasks, contract_tasks, lemma_tasks, TRUSTED_CORE, SCHED_ASSUMPTIONS, CLOSURE_ASSUMPTION

PROPERTY = "C05"


def tasks(tier):
    return (contract_tasks("contracts.runner_init", "C05") + (contract_tasks("contracts.scheduler", "C05", tier=tier) + contract_tasks("contracts.sim_process", "C05", tier=tier)
            + contract_tasks("contracts.progress", "C05", tier=tier) + lemma_tasks("contracts.progress", "C05"))
            + contract_tasks("contracts.run_prelude", "C05", tier=tier)
            # ('incomparable delays' is one of the internal errors C05 names: the order on delays and its use in update_min)
            + contract_tasks("contracts.tiered_time", "C08")
            + contract_tasks("contracts.scenario_min", "C05")
            + contract_tasks("contracts.closure_ded", "C05") + lemma_tasks("contracts.closure_ded", "C05") + contract_tasks("contracts.cycles_ded", "C05") + lemma_tasks("contracts.cycles_ded", "C05") + other_tasks("contracts.closure", "C05", "bounded") + other_tasks("contracts.determinism_bounded", "C05", "bounded"))


TRUSTED_BASE = TRUSTED_CORE
ASSUMPTIONS = SCHED_ASSUMPTIONS + [CLOSURE_ASSUMPTION]
NOT_COVERED = ['termination / deadlock freedom as such (liveness over whole histories) is NOT decided: no function contract expresses it. Decided instead: every internal-error site is unreachable, and the one wait whose condition could be unsatisfiable (own progress beyond until) is excluded by an obligation at the await (this found F16)', 'scenarios in the known finding F6 (K_mixed delays on two paths) die in the closure before any step: recorded, replayed on every run']
LEVEL_TEXT = "Safety half: every internal-error site on the run path (cannot progress backwards, already progressed, length / None errors, empty heap, incomparable delays in the scheduler functions) is an obligation 'unreachable' under the invariant; the awaited progress in next_step_settled is never beyond until; scheduler.run starts every simulator exactly once. Deadlock freedom / termination (liveness) is NOT decided. The order and arithmetic of tiered times / delays (C08 contracts) and update_min are part of this check: 'incomparable delays' is one of the internal errors the statement names."
DESIGN_REF = "DESIGN.md section 8 (C05)"
LEVEL_NOTE = 'Proved for any number of simulators, any topology, any reply values and every interleaving, under the listed assumptions (evidence: assumptions, coverage.trusted_base). Trusted: pyvc encoder, the rely/guarantee meta-theorem, assumed contracts of asyncio/heapq, the time/delay algebra axioms (C08 provenance), static connection-table facts, z3/cvc5. Known finding F6; fixed through this check: F3 (6862ef0), F13 (d15a998), F16 (520221d).'
TECHNIQUE = 'contract-based deductive verification (AST->z3 VCs on the real functions, global invariant, rely/guarantee at awaits)'
CLAIMED = True
NA_REASON = ""
