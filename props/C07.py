"""C07 -- max_advance is a sound promise."""
from props.common import contract_tasks, TRUSTED_CORE
PROPERTY = "C07"
def tasks(tier):
    return contract_tasks("contracts.scheduler", "C07")
TRUSTED_BASE = TRUSTED_CORE
ASSUMPTIONS = []
NOT_COVERED = []
LEVEL_TEXT = "wip"; DESIGN_REF = "DESIGN.md section 8 (C07)"; LEVEL_NOTE = "wip"
TECHNIQUE = "contract-based deductive verification"
CLAIMED = False
NA_REASON = "check under construction in this round"
