"""C07 -- max_advance is a sound promise."""
from props.common import other_tasks, contract_tasks, TRUSTED_CORE, SCHED_ASSUMPTIONS
PROPERTY = "C07"
def tasks(tier):
    return (contract_tasks("contracts.scheduler", "C07")
            + other_tasks("contracts.closure", "C07", "bounded") + other_tasks("contracts.determinism_bounded", "C07", "bounded")
            + contract_tasks("contracts.tiered_time", "C08"))
TRUSTED_BASE = TRUSTED_CORE
ASSUMPTIONS = SCHED_ASSUMPTIONS
NOT_COVERED = ["the promise as a whole-run statement ('not stepped in (t, m] for an outside reason') needs a history invariant PM over all later schedule_step calls of other simulators; it is NOT built. Decided: the function computing m (exact characterisation: the minimum over triggering ancestors of their next / current step plus distance, capped by until), and the closure it reads by a bounded stand-in", 'triggering_ancestors (cache_triggering_ancestors) by a bounded stand-in only']
LEVEL_TEXT = 'Function-level contract of get_max_advance (exact characterisation incl. in-flight ancestors, m <= until, m = until without trigger inputs, frame) for all states satisfying the invariant; bounded stand-in for the ancestor closure. The whole-run promise invariant is not built (see not_covered). End to end (BOUNDED, not a proof): in every run of the differential harness (all scenarios x configurations x interleavings; bound in coverage.bounded[].bound) the max_advance handed to each step is checked against the steps that follow.'
DESIGN_REF = "DESIGN.md section 8 (C07)"
LEVEL_NOTE = "Partly decided. Trusted: pyvc encoder, time/delay algebra axioms with C08 provenance, static table typing (static_ok), z3/cvc5. Fixed through this check: F3' (6862ef0)."
TECHNIQUE = 'contract-based deductive verification (get_max_advance) + bounded stand-in for the ancestor closure'
CLAIMED = True
NA_REASON = ""
