"""C07 -- max_advance is a sound promise."""
from props.common import lemma_tasks, other_tasks, contract_tasks, TRUSTED_CORE, SCHED_ASSUMPTIONS, CLOSURE_ASSUMPTION
PROPERTY = "C07"
def tasks(tier):
    return (contract_tasks("contracts.runner_init", "C07") + contract_tasks("contracts.scheduler", "C07")
            + contract_tasks("contracts.closure_ded", "C07") + lemma_tasks("contracts.closure_ded", "C07") + other_tasks("contracts.closure", "C07", "bounded") + other_tasks("contracts.determinism_bounded", "C07", "bounded")
            + contract_tasks("contracts.tiered_time", "C08"))
TRUSTED_BASE = TRUSTED_CORE
ASSUMPTIONS = SCHED_ASSUMPTIONS + [CLOSURE_ASSUMPTION]
NOT_COVERED = ["the promise as a whole-run statement ('not stepped in (t, m] for an outside reason') needs a history invariant PM over all later schedule_step calls of other simulators; it is NOT built. Decided: the function computing m (exact characterisation: the minimum over triggering ancestors of their next / current step plus distance, capped by until), and the closure it reads (cache_triggering_ancestors: contract, minimum over all trigger paths)", 'the link between the closure contract (abstract delay algebra) and the trig_static facts assumed by get_max_advance is argued, not mechanised']
LEVEL_TEXT = 'Function-level contract of get_max_advance (exact characterisation incl. in-flight ancestors, m <= until, m = until without trigger inputs, frame) for all states satisfying the invariant; contract on the ancestor closure cache_triggering_ancestors (every entry is the delay of a trigger path, not above the delay of ANY trigger path: sound / direct / closed loop invariants plus two path-induction lemmas; bounded stand-in kept alongside). The whole-run promise invariant is not built (see not_covered). End to end (BOUNDED, not a proof): in every run of the differential harness (all scenarios x configurations x interleavings; bound in coverage.bounded[].bound) the max_advance handed to each step is checked against the steps that follow.'
DESIGN_REF = "DESIGN.md section 8 (C07)"
LEVEL_NOTE = "Partly decided. Trusted: pyvc encoder, time/delay algebra axioms with C08 provenance, static table typing (static_ok), z3/cvc5. Fixed through this check: F3' (6862ef0)."
TECHNIQUE = 'contract-based deductive verification (get_max_advance, cache_triggering_ancestors with path-induction lemmas); bounded stand-ins alongside'
CLAIMED = True
NA_REASON = ""
