"""C07 -- max_advance is a sound promise."""
from props.common import other_tasks, contract_tasks, TRUSTED_CORE
PROPERTY = "C07"
def tasks(tier):
    return (contract_tasks("contracts.scheduler", "C07")
            + other_tasks("contracts.closure", "C07", "bounded"))
TRUSTED_BASE = TRUSTED_CORE
ASSUMPTIONS = []
NOT_COVERED = []
LEVEL_TEXT = 'Function-level contract of get_max_advance (exact characterisation incl. in-flight ancestors, <= until, = until without trigger inputs, frame); the promise invariant PM over whole runs is not yet built.'
TECHNIQUE = "contract-based deductive verification"
DESIGN_REF = 'DESIGN.md section 8 (C07)'
LEVEL_NOTE = 'Trusted: pyvc encoder, time/delay algebra axioms with C08 provenance, static table typing (static_ok), z3/cvc5.'
CLAIMED = True
NA_REASON = "check under construction in this round"
