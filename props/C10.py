"""C10 -- scheduler core (work in progress: metadata filled in below)."""
from props.common import other_tasks, contract_tasks, lemma_tasks, TRUSTED_CORE, SCHED_ASSUMPTIONS

PROPERTY = "C10"


def tasks(tier):
    return (contract_tasks("contracts.scheduler", "C10", tier=tier) + contract_tasks("contracts.sim_process", "C10", tier=tier)
            + contract_tasks("contracts.progress", "C10", tier=tier) + lemma_tasks("contracts.progress", "C10")
            + contract_tasks("contracts.connect", "C10", tier=tier) + other_tasks("contracts.determinism_bounded", "C10", "bounded")
            + contract_tasks("contracts.tiered_time", "C08"))


TRUSTED_BASE = TRUSTED_CORE
ASSUMPTIONS = SCHED_ASSUMPTIONS
NOT_COVERED = []
LEVEL_TEXT = 'Ghost assertion C10 at BEGIN from the postcondition of wait_for_dependencies (with lazy_stepping every direct consumer has reached the step time, adapted across group boundaries) and the invariant; all interleavings; connect_one records every consumer in successors. End to end (BOUNDED, not a proof): with lazy_stepping on, every step begin of every run of the differential harness is checked against the outstanding steps of the simulator\'s consumers.'
DESIGN_REF = "DESIGN.md section 8 (C10)"
LEVEL_NOTE = 'Proved for any number of simulators, any topology, any reply values and every interleaving, under the listed assumptions (evidence: assumptions, coverage.trusted_base). Trusted: pyvc encoder, the rely/guarantee meta-theorem, assumed contracts of asyncio/heapq, the time/delay algebra axioms (C08 provenance), static connection-table facts, z3/cvc5.'
TECHNIQUE = 'contract-based deductive verification (AST->z3 VCs on the real functions, global invariant, rely/guarantee at awaits)'
CLAIMED = True
NA_REASON = ""
