"""C10 -- scheduler core (work in progress: metadata filled in below)."""
from props.common import contract_tasks, lemma_tasks, TRUSTED_CORE

PROPERTY = "C10"


def tasks(tier):
    return (contract_tasks("contracts.scheduler", "C10", tier=tier) + contract_tasks("contracts.sim_process", "C10", tier=tier)
            + contract_tasks("contracts.progress", "C10", tier=tier) + lemma_tasks("contracts.progress", "C10")
            + contract_tasks("contracts.connect", "C10", tier=tier))


TRUSTED_BASE = TRUSTED_CORE
ASSUMPTIONS = []
NOT_COVERED = []
LEVEL_TEXT = 'Ghost assertion C10 at BEGIN from the postcondition of wait_for_dependencies (lazy consumers reached) and the invariant; all interleavings.'
DESIGN_REF = "DESIGN.md section 8 (C10)"
LEVEL_NOTE = 'Trusted: pyvc encoder (Python semantics of DESIGN 3.4), the rely/guarantee meta-theorem for cooperative asyncio tasks (DESIGN 6, not mechanised), assumed contracts of asyncio/heapq, time/delay algebra axioms (each with provenance to a C08 obligation), static connection-table facts static_ok/trig_static (assumed here; established by the scenario.py contracts where built), non-real-time mode, z3/cvc5.'
TECHNIQUE = "contract-based deductive verification (AST->z3 VCs on the real functions, global invariant, rely/guarantee at awaits)"
CLAIMED = True
NA_REASON = "check under construction in this round"
