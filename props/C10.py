"""C10 -- scheduler core (work in progress: metadata filled in below)."""
from props.common import contract_tasks, lemma_tasks, TRUSTED_CORE

PROPERTY = "C10"


def tasks(tier):
    return (contract_tasks("contracts.scheduler", "C10", tier=tier) + contract_tasks("contracts.sim_process", "C10", tier=tier)
            + contract_tasks("contracts.progress", "C10", tier=tier) + lemma_tasks("contracts.progress", "C10"))


TRUSTED_BASE = TRUSTED_CORE
ASSUMPTIONS = []
NOT_COVERED = []
LEVEL_TEXT = "wip"
DESIGN_REF = "DESIGN.md section 8 (C10)"
LEVEL_NOTE = "wip"
TECHNIQUE = "contract-based deductive verification (AST->z3 VCs on the real functions, global invariant, rely/guarantee at awaits)"
CLAIMED = False
NA_REASON = "check under construction in this round"
