"""C13 -- scheduler core (work in progress: metadata filled in below)."""
from props.common import other_tasks, contract_tasks, lemma_tasks, TRUSTED_CORE, SCHED_ASSUMPTIONS

PROPERTY = "C13"


def tasks(tier):
    return contract_tasks("contracts.scheduler", "C13", tier=tier) + contract_tasks("contracts.sim_process", "C13", tier=tier) \
        + contract_tasks("contracts.run_prelude", "C13", tier=tier) + contract_tasks("contracts.shutdown", "C13", tier=tier) + contract_tasks("contracts.adapters", "C13", tier=tier) \
        + other_tasks("contracts.faults_bounded", "C13", "bounded")


TRUSTED_BASE = TRUSTED_CORE
ASSUMPTIONS = SCHED_ASSUMPTIONS
NOT_COVERED = ["'aborts run()': the SimulationError leaves sim_process; that World.run passes it on after shutting down is C14's World.run contract"]
LEVEL_TEXT = 'Exact raise conditions (iff) at the reply-validation sites of step() / get_outputs() (non-int or not-later next step, output time before the step time, time-based simulator without next step), the error message mentions the simulator id, no effect after an invalid reply (exceptional postconditions), accepted replies are valid (postconditions). SimRunner.step / get_data / setup_done hand the simulator\'s reply on unchanged (no coercion); scheduler.run passes the first failure on at once.'
DESIGN_REF = "DESIGN.md section 8 (C13)"
LEVEL_NOTE = 'Proved for any number of simulators, any topology, any reply values and every interleaving, under the listed assumptions (evidence: assumptions, coverage.trusted_base). Trusted: pyvc encoder, the rely/guarantee meta-theorem, assumed contracts of asyncio/heapq, the time/delay algebra axioms (C08 provenance), static connection-table facts, z3/cvc5. Fixed through this check: F8 (4154261).'
TECHNIQUE = 'contract-based deductive verification (AST->z3 VCs on the real functions, global invariant, rely/guarantee at awaits)'
CLAIMED = True
NA_REASON = ""
